"""C13 — the integrity checker accepts dclab's own output and flags real
inconsistencies.

Three kinds of cases, one Hypothesis strategy, JSON specs:

* ``closure``  – a dataset with *complete* metadata (every key the checker
  calls mandatory, consistent fluorescence metadata; keys the writer documents
  as auto-completed may be omitted or deliberately wrong) is written through
  the writer (append history, re-open, metadata before/after the features) or
  exported from a dict dataset and then sent through a chain of dclab write
  paths (compress, repack, condense, export filtered / unfiltered / with
  basins / from a hierarchy child, split, join).  Every file on the way must be
  reported without violations; the final file and its compressed and repacked
  copies must receive the same violations.
* ``defect``   – the same, but the *user* metadata handed to the writer lacks
  mandatory keys / holds non-positive set-up values / a ZMD all-zero
  temperature.  These are files dclab itself produces, so (i) each defect has
  to be reported, (ii) the compressed and repacked copies must receive exactly
  the same violations.
* ``corrupt``  – a valid file (short chain) receives one or two seeded
  corruptions with raw h5py (feature length, event count, ROI attribute,
  unknown feature, deleted mandatory attribute / section, non-enumerating
  index, channel / laser / samples-per-event contradictions, external link /
  virtual / external-storage dataset, non-positive set-up value); each one
  has to come back as a violation of the matching category (also when paired),
  ``check_dataset`` and ``IntegrityChecker.check`` must agree, and the exit
  code of ``dclab-verify-dataset`` must be the documented function of the
  (violations, alerts) pair.
"""
import pathlib

import h5py
import numpy as np
from hypothesis import strategies as st

from .. import boot
from ..common import quiet, chunk_bytes, st_composition, boundary_n

import dclab
from dclab import RTDCWriter
from dclab import cli
from dclab.rtdc_dataset.check import check_dataset, IntegrityChecker

ID = "C13"
RULE = ("Hypothesis-generated dataset specs (features x sizes x writer history x "
        "metadata variant) x chain of dclab write paths x seeded corruptions; a case "
        "is non-trivial when the checked file went through >= 2 chained dclab write "
        "paths (closure/defect) or carries two applied corruptions (corrupt); "
        "distinct = sha1 of the canonical JSON spec")
BUDGET = {"quick": 400, "thorough": 8000}
ESSENTIAL = [
    "mode:closure", "mode:defect", "mode:corrupt", "chain>=2", "paired",
    "op:compress", "op:repack", "op:condense", "op:export", "op:export_filtered",
    "op:export_basins", "op:child_export", "op:split", "op:join",
    "route:writer", "route:dict",
    "cor:len_feat", "cor:evcount", "cor:roi", "cor:unknown", "cor:del_meta",
    "cor:bad_index", "cor:fl_chan", "cor:fl_laser", "cor:fl_spe", "cor:ext",
    "cor:nonpos", "exit:0", "exit:1", "exit:2", "exit:3", "copies-compared",
    "defect:omit", "defect:nonpos",
]
ASSUMPTIONS = [
    "version shim: dclab._version pre-seeded with 0.62.7 so that files written by "
    "the untagged build can be re-opened",
    "'complete metadata' = all keys of check.IMPORTANT_KEYS (+ IMPORTANT_KEYS_FL for "
    "files with fl?_max) minus the keys RTDCWriter.rectify_metadata documents as "
    "auto-completed; channel names given exactly for the stored fl?_max channels; "
    "ml scores in [0,1]; temp not all-zero",
    "corruptions are judged through check_dataset / IntegrityChecker / the CLI exit "
    "code only; the wording of messages is matched by the feature / section / key "
    "names they must mention, never by numbers",
    "non-positive set-up values exclude NaN (not 'non-positive')",
    "the 'same violations for the compressed / repacked copy' clause is asserted for "
    "files produced by dclab only (after a raw corruption the copy tools legitimately "
    "repair or drop the corrupted object)",
]

# ---------------------------------------------------------------- constants

F_PLAUS = {          # float features: (lo, hi) plausible range
    "deform": (0.005, 0.2), "area_um": (20.0, 300.0), "area_cvx": (60.0, 900.0),
    "pos_x": (5.0, 80.0), "pos_y": (2.0, 30.0), "size_x": (3.0, 30.0),
    "size_y": (3.0, 30.0), "bright_avg": (10.0, 200.0), "time": (0.0, 50.0),
    "temp": (20.0, 30.0), "userdef0": (-100.0, 100.0),
    "ml_score_abc": (0.0, 1.0), "ml_score_x1z": (0.0, 1.0),
}
F_SPECIAL_OK = ["userdef0", "bright_avg", "pos_x"]     # NaN / inf allowed here
I_FEATS = ["frame", "nevents", "index_online", "fl1_npeaks", "fl2_npeaks"]
SCAL_POOL = sorted(F_PLAUS) + I_FEATS
IMG_FEATS = ["image", "image_bg", "mask"]
TRACES = ["fl1_raw", "fl1_median", "fl2_raw", "fl2_median", "fl3_raw", "fl3_median"]

# my own transcription of the keys the property calls "mandatory metadata"
MANDATORY = {
    "experiment": ["date", "event count", "run index", "sample", "time"],
    "imaging": ["flash device", "flash duration", "frame rate", "pixel size",
                "roi position x", "roi position y", "roi size x", "roi size y"],
    "setup": ["channel width", "chip region", "flow rate", "medium"],
}
MANDATORY_FL = ["bit depth", "channel count", "channels installed", "laser count",
                "lasers installed", "sample rate", "samples per event", "signal max",
                "signal min", "trace median"]
NONPOS_KEYS = [["imaging", "frame rate"], ["imaging", "pixel size"],
               ["setup", "channel width"], ["setup", "flow rate"]]
NONPOS_VALS = [0.0, -0.0, -1.0, -1e-9, -2.5e3]
UNKNOWN_NAMES = ["foo", "deform2", "Image", "userdef10", "fl4_max", "ml_score_ab",
                 "ml_score_ABC", "area", "tracee", "index_offline",
                 # valid names extended at either end
                 "ml_score_abcd", "ml_score_0012", "xml_score_abc", "userdef1x",
                 "area_um2", "ml_score_abc_old"]
OPS_ALL = ["compress", "repack", "repack_strip", "condense", "condense_noanc",
           "export", "export_filtered", "export_basins", "child_export", "split",
           "join"]
OPS_KEEP = ["compress", "repack", "export", "export_filtered", "split"]
# call sites at which the checker is known to raise for a class of corruption
# (used only to label the failure signature, never to suppress anything)
KF_SITE = {"index-length": "check_feat_index",
           "empty-trace": "check_fl_samples_per_event",
           "empty-flmax": "check_fl_max_positive"}
# metadata dclab-split / dclab-join need to do their work
TOOL_KEYS = {"sample", "date", "time", "run index", "frame rate"}
COR_KINDS = ["len_feat", "evcount", "roi", "unknown", "del_meta", "bad_index",
             "fl_chan", "fl_laser", "fl_spe", "ext", "nonpos"]


# ---------------------------------------------------------------- strategy

@st.composite
def st_ds(draw, need_img=False, need_fl=False, need_trace=False, clean=False):
    n = draw(boundary_n(10, 32))
    scal = draw(st.lists(st.sampled_from(SCAL_POOL), min_size=1, max_size=5,
                         unique=True))
    img = None
    imgf = []
    if need_img or draw(st.integers(0, 9)) < 5:
        img = [draw(st.integers(4, 9)), draw(st.integers(4, 12))]
        imgf = draw(st.lists(st.sampled_from(IMG_FEATS), min_size=1, max_size=3,
                             unique=True))
    fl = []
    if need_fl or draw(st.integers(0, 9)) < 4:
        fl = draw(st.lists(st.sampled_from([1, 2, 3]), min_size=1, max_size=3,
                           unique=True))
    trace = None
    if need_trace or draw(st.integers(0, 9)) < 3:
        trace = {"names": sorted(draw(st.lists(st.sampled_from(TRACES), min_size=1,
                                               max_size=3, unique=True))),
                 "ns": draw(st.integers(1, 12))}
    comp = draw(st_composition(n, 4))
    lasers = draw(st.lists(st.sampled_from([1, 2, 3]), max_size=3, unique=True))
    return {
        "n": n, "seed": draw(st.integers(0, 2**20)), "scal": sorted(scal),
        "special": (not clean) and draw(st.integers(0, 4)) == 0,
        "img": img, "imgf": sorted(imgf),
        "contour": draw(st.integers(0, 4)) == 0,
        "fl": sorted(fl), "flneg": (not clean) and draw(st.integers(0, 5)) == 0,
        "trace": trace,
        "index": draw(st.booleans()),
        "comp": comp,
        "reopen": draw(st.lists(st.booleans(), min_size=len(comp),
                                max_size=len(comp))),
        "meta_late": draw(st.booleans()),
        "full": clean or draw(st.booleans()),
        "auto": draw(st.sampled_from(["given", "omit", "wrong", "wrong_x", "wrong_y"])),
        "lasers": sorted(lasers),
        "zeropower": draw(st.booleans()),
        "log": 0 if clean else draw(st.integers(0, 3)),
        "table": draw(st.integers(0, 3)) == 0,
        "route": draw(st.sampled_from(["writer", "writer", "dict"])),
        "replace": draw(st.integers(0, 5)) == 0,
    }


@st.composite
def st_op(draw, pool):
    return {"op": draw(st.sampled_from(pool)), "a": draw(st.integers(0, 63)),
            "mask": draw(st.one_of(
                st.lists(st.booleans(), min_size=1, max_size=12),
                st.lists(st.booleans(), min_size=1, max_size=12),
                st.sampled_from([["K", 11], ["K", 21], ["K", 31], ["K", 10],
                                 ["K", 20], ["K", 12]])))}


@st.composite
def st_cor(draw, kind):
    return {"k": kind, "a": draw(st.integers(0, 63)), "b": draw(st.integers(0, 63)),
            "c": draw(st.integers(0, 63))}


@st.composite
def st_spec(draw):
    mode = draw(st.sampled_from(["closure"] * 7 + ["defect"] * 3 + ["corrupt"] * 10))
    spec = {"mode": mode, "chunk": draw(st.sampled_from([None, 100])),
            "defects": [], "corrupt": [], "copies": True}
    if mode == "closure":
        clean = draw(st.integers(0, 3)) == 0
        spec["ds"] = draw(st_ds(clean=clean))
        spec["ops"] = draw(st.lists(st_op(OPS_ALL), min_size=0, max_size=3))
        spec["copies"] = draw(st.integers(0, 2)) == 0
    elif mode == "defect":
        spec["ds"] = draw(st_ds())
        kinds = draw(st.lists(st.sampled_from(["omit", "omit", "nonpos", "zmd"]),
                              min_size=1, max_size=2))
        spec["defects"] = [{"k": k, "a": draw(st.integers(0, 63)),
                            "b": draw(st.integers(0, 63))} for k in kinds]
        spec["ops"] = draw(st.lists(st_op(OPS_ALL), min_size=0, max_size=2))
    else:
        kinds = draw(st.lists(st.sampled_from(COR_KINDS), min_size=1, max_size=2))
        clean = draw(st.integers(0, 2)) == 0
        spec["ds"] = draw(st_ds(
            need_img="roi" in kinds,
            need_fl=bool({"fl_chan", "fl_laser", "fl_spe"} & set(kinds)),
            need_trace="fl_spe" in kinds, clean=clean))
        spec["corrupt"] = [draw(st_cor(k)) for k in kinds]
        spec["ops"] = draw(st.lists(st_op(OPS_KEEP), min_size=0, max_size=1))
        spec["copies"] = False
    spec["seed2"] = draw(st.integers(0, 2**20))
    spec["cli_missing"] = draw(st.integers(0, 19)) == 0
    return spec


def strategy(tier):
    return st_spec()


# ---------------------------------------------------------------- enumerated part

def _template(index=True, minimal=False, fl=(1, 2)):
    if minimal:
        return {"n": 3, "seed": 11, "scal": ["deform"], "special": False,
                "img": None, "imgf": [], "contour": False, "fl": [], "flneg": False,
                "trace": None, "index": index, "comp": [3], "reopen": [False],
                "meta_late": False, "full": False, "auto": "given", "lasers": [],
                "zeropower": False, "log": 0, "table": False, "route": "writer",
                "replace": False}
    return {"n": 12, "seed": 7, "scal": ["area_um", "deform", "temp"],
            "special": False, "img": [6, 9], "imgf": ["image", "image_bg", "mask"],
            "contour": True, "fl": list(fl), "flneg": False,
            "trace": {"names": ["fl1_raw", "fl2_median"], "ns": 7},
            "index": index, "comp": [5, 7], "reopen": [True, False],
            "meta_late": False, "full": True, "auto": "given", "lasers": [1, 2],
            "zeropower": True, "log": 0, "table": True, "route": "writer",
            "replace": False}


def _case(ds, mode="corrupt", ops=(), corrupt=(), defects=()):
    return {"mode": mode, "chunk": None, "defects": list(defects),
            "corrupt": list(corrupt), "copies": mode != "corrupt", "ds": ds,
            "ops": [{"op": o, "a": a, "mask": [True, False, True]} for o, a in ops],
            "seed2": 5, "cli_missing": False}


def enumerate_cases(tier):
    """deterministic sweep: every corruption kind x variant alone on a rich and
    on a minimal valid file, every write path once, every omittable key once"""
    full = _template()
    noidx = _template(index=False)
    mini = _template(minimal=True)

    def cor(k, a=0, b=0, c=0):
        return {"k": k, "a": a, "b": b, "c": c}
    out = []
    nfeat = 3 + 3 + 1 + 2 + 1 + 2      # scalars, images, contour, fl_max, index, traces
    for a in range(nfeat):
        for b in (1, 3, 5):
            out.append(_case(full, corrupt=[cor("len_feat", a, b, a + b)]))
    for b in (1, 3, 5):
        out.append(_case(mini, corrupt=[cor("len_feat", 0, b, 1)]))
    for a in range(6):
        out.append(_case(noidx, corrupt=[cor("evcount", a)]))
        out.append(_case(mini if a % 2 else full, corrupt=[cor("evcount", a)]))
    for a in range(2):
        for b in range(4):
            out.append(_case(full, corrupt=[cor("roi", a, b)]))
    for a in range(len(UNKNOWN_NAMES)):
        out.append(_case(full if a % 2 else mini, corrupt=[cor("unknown", a, a % 3)]))
    for a in range(27):
        out.append(_case(full, corrupt=[cor("del_meta", a, 1)]))
    for a in range(17):
        out.append(_case(mini, corrupt=[cor("del_meta", a, 1)]))
    for a in range(4):
        out.append(_case(full, corrupt=[cor("del_meta", a, 0)]))
    for a in range(5):
        for t in (full, noidx, mini):
            out.append(_case(t, corrupt=[cor("bad_index", a, a + 1)]))
    for a in range(4):
        for b in range(4):
            out.append(_case(full, corrupt=[cor("fl_chan", a, b)]))
    for a in range(4):
        for b in range(4):
            out.append(_case(full, corrupt=[cor("fl_laser", a, b)]))
    for a in range(4):
        out.append(_case(full, corrupt=[cor("fl_spe", a)]))
        out.append(_case(_template(fl=(3,)), corrupt=[cor("fl_spe", a)]))
    for a in range(8):
        for b in (range(5) if a <= 2 or a >= 6 else (0,)):
            out.append(_case(full if (a + b) % 2 else mini,
                             corrupt=[cor("ext", a, b, a + b)]))
    for a in range(3):
        for b in (5, 6):            # link inside the contour / trace group
            for c in range(3):
                out.append(_case(full, corrupt=[cor("ext", a, b, c)]))
    for a in range(4):
        for b in range(len(NONPOS_VALS)):
            out.append(_case(mini if b % 2 else full, corrupt=[cor("nonpos", a, b, b)]))
    # single-channel files (each channel alone) with the fl corruptions
    for ch in (1, 2, 3):
        t = _template(fl=(ch,))
        out.append(_case(t, corrupt=[cor("fl_chan", 1, 0)]))
        out.append(_case(t, corrupt=[cor("fl_laser", 3, 0)]))
        out.append(_case(t, corrupt=[cor("del_meta", 17 + ch, 1)]))
    # every write path once (and twice chained) on the rich file
    for i, o in enumerate(OPS_ALL):
        out.append(_case(full, mode="closure", ops=[(o, i)]))
        out.append(_case(noidx, mode="closure",
                         ops=[(o, i + 1), (OPS_ALL[(i + 3) % len(OPS_ALL)], i)]))
    for auto in ("omit", "wrong", "wrong_x", "wrong_y"):
        t = dict(full, auto=auto, meta_late=(auto == "wrong"))
        out.append(_case(t, mode="closure", ops=[("compress", 0)]))
        out.append(_case(dict(t, route="dict", contour=False, trace=None),
                         mode="closure", ops=[("repack", 0)]))
    # feature-subset export that keeps fl1_max and drops fl2_max (a=2: subset of
    # the first three scalar features area_um, deform, fl1_max)
    out.append(_case(dict(noidx, scal=["area_um", "deform"]), mode="closure",
                     ops=[("export_basins", 2)]))
    # ROI size completed from the mask when there is no image; event count of
    # a file whose alphabetically first feature is the trace group
    for auto in ("omit", "wrong"):
        out.append(_case(dict(full, imgf=["mask"], auto=auto), mode="closure",
                         ops=[("export", 0)]))
        out.append(_case(dict(noidx, scal=["userdef0"], img=None, imgf=[],
                              contour=False, fl=[], auto=auto), mode="closure",
                         ops=[("compress", 0)]))
    # channel count completed by the writer for every channel combination
    for fl in ((3,), (1, 3), (2, 3), (1, 2, 3)):
        out.append(_case(dict(_template(fl=fl), auto="omit"), mode="closure",
                         ops=[("export", 1)]))
    # alerts with and without a metadata section in one file (long log line,
    # optional keys missing), violations likewise (paired corruption)
    out.append(_case(dict(noidx, full=False, log=1), mode="closure",
                     ops=[("compress", 0)]))
    out.append(_case(dict(full, full=False, log=2), mode="closure"))
    out.append(_case(mini, corrupt=[cor("len_feat", 0, 1, 1), cor("nonpos", 2, 0)]))
    out.append(_case(full, corrupt=[cor("unknown", 0, 2), cor("del_meta", 5, 1)]))
    # dclab-produced files with one missing mandatory key / non-positive value
    for a in range(22):
        out.append(_case(full if a % 2 else noidx, mode="defect",
                         defects=[{"k": "omit", "a": a, "b": 0}]))
    for a in range(4):
        for b in range(len(NONPOS_VALS)):
            out.append(_case(mini, mode="defect",
                             defects=[{"k": "nonpos", "a": a, "b": b}]))
    out.append(_case(full, mode="defect", defects=[{"k": "zmd", "a": 0, "b": 0}]))
    # exports whose selection is one event more than 1/2/3 export chunks (chunk of
    # 10 events with CHUNK_SIZE_BYTES=100) - the remainder branch of the stack
    # assembler - through export_filtered, child_export and split
    for n_, k_ in ((21, 11), (31, 21), (32, 31), (22, 20)):
        big = dict(_template(), n=n_, comp=[n_], reopen=[False])
        for opname in ("export_filtered", "child_export", "export_basins"):
            c_ = _case(big, mode="closure", ops=[(opname, 1)])
            c_["chunk"] = 100
            c_["ops"][0]["mask"] = ["K", k_]
            out.append(c_)
        c_ = _case(dict(_template(), n=n_, comp=[n_], reopen=[False]), mode="closure",
                   ops=[("split", k_)])
        c_["chunk"] = 100
        out.append(c_)
    return out


def sample_view(spec):
    ds = spec["ds"]
    return {"mode": spec["mode"], "n": ds["n"], "scal": ds["scal"], "imgf": ds["imgf"],
            "fl": ds["fl"], "trace": ds["trace"], "route": ds["route"],
            "comp": ds["comp"], "auto": ds["auto"],
            "ops": [o["op"] for o in spec["ops"]],
            "defects": [d["k"] for d in spec["defects"]],
            "corrupt": [c["k"] for c in spec["corrupt"]]}


# ---------------------------------------------------------------- dataset

def _features(ds, seed):
    """feature name -> full data (n events), deterministic in (ds, seed)"""
    n = ds["n"]
    r = np.random.default_rng(seed % (2**32))
    out = {}
    for nm in ds["scal"]:
        if nm in F_PLAUS:
            lo, hi = F_PLAUS[nm]
            a = lo + (hi - lo) * r.random(n)
            if nm == "time":
                a = np.sort(a)
            if ds["special"] and nm in F_SPECIAL_OK:
                k = r.integers(0, n, size=max(1, n // 4))
                a[k] = np.array([np.nan, np.inf, -np.inf, np.nan])[
                    r.integers(0, 4, size=k.size)]
            out[nm] = a
        elif nm == "frame":
            out[nm] = np.cumsum(r.integers(1, 9, size=n)).astype(np.uint64)
        elif nm == "index_online":
            out[nm] = np.cumsum(r.integers(1, 4, size=n)).astype(np.int64)
        else:
            out[nm] = r.integers(0, 7, size=n).astype(np.int64)
    for ch in ds["fl"]:
        # flneg: values <= 0.1 occur (an alert, never a violation)
        lo, hi = (0, 5) if ds["flneg"] else (1, 30000)
        out[f"fl{ch}_max"] = r.integers(lo, hi, size=n).astype(np.int64)
    if ds["img"]:
        h, w = ds["img"]
        for f in ds["imgf"]:
            if f == "mask":
                # one filled rectangle (>= 2x2) per event, away from the border
                mk = np.zeros((n, h, w), dtype=bool)
                for i in range(n):
                    y0 = int(r.integers(1, h - 2))
                    x0 = int(r.integers(1, w - 2))
                    y1 = int(r.integers(y0 + 2, h))
                    x1 = int(r.integers(x0 + 2, w))
                    mk[i, y0:y1, x0:x1] = True
                out[f] = mk
            else:
                # never all-zero first / last frame (dclab-split drops those on purpose)
                out[f] = r.integers(1, 256, size=(n, h, w)).astype(np.uint8)
    if ds["contour"]:
        out["contour"] = [r.integers(1, 60, size=(int(r.integers(3, 12)), 2))
                          for _ in range(n)]
    if ds["trace"]:
        ns = ds["trace"]["ns"]
        out["trace"] = {t: r.integers(-200, 2000, size=(n, ns)).astype(np.int16)
                        for t in ds["trace"]["names"]}
    if ds["index"]:
        out["index"] = np.arange(1, n + 1)
    return out


def _meta(ds, idx=0, defects=()):
    """(metadata handed to dclab, expected violations caused by `defects`)"""
    fl = bool(ds["fl"])
    m = {
        # the run identifier is optional for the checker, but files without
        # one cannot serve as basins of their own exports (C14 territory)
        "experiment": {"sample": "vf sample", "run index": idx + 1,
                       "date": "2021-03-04", "time": f"12:0{idx}:00",
                       "run identifier": f"vf-rid-{ds['seed']}-{idx}"},
        "imaging": {"frame rate": 2000.0, "pixel size": 0.34, "flash device": "LED",
                    "flash duration": 2.0, "roi position x": 10,
                    "roi position y": 20},
        "setup": {"channel width": 20.0, "flow rate": 0.04, "medium": "CellCarrier",
                  "chip region": "channel"},
    }
    if ds["full"]:
        m["experiment"]["timestamp"] = 1614859200.0 + 60 * idx
        m["setup"].update({"module composition": "Cell_Flow_2, Fluor",
                           "software version": "ShapeIn 2.0.6",
                           "flow rate sample": 0.01, "flow rate sheath": 0.03,
                           "identifier": "ZMDD-AcC-8ecba5-cd57e2",
                           "chip identifier": "chip-1", "temperature": 23.0})
    elif "temp" in ds["scal"]:
        m["setup"]["temperature"] = 23.0
    auto = ds["auto"]
    has_img = bool(ds["img"]) and bool(set(ds["imgf"]) & {"image", "mask"})
    # keys documented as auto-completed by RTDCWriter.rectify_metadata
    if has_img and auto == "omit":
        pass
    elif has_img and auto == "wrong":
        m["imaging"].update({"roi size x": 999, "roi size y": 1})
    elif has_img and auto == "wrong_x":     # only one of the two is stale
        m["imaging"].update({"roi size x": 999, "roi size y": ds["img"][0]})
    elif has_img and auto == "wrong_y":
        m["imaging"].update({"roi size x": ds["img"][1], "roi size y": 1})
    elif ds["img"]:
        m["imaging"].update({"roi size x": ds["img"][1], "roi size y": ds["img"][0]})
    else:
        m["imaging"].update({"roi size x": 250, "roi size y": 80})
    if auto.startswith("wrong"):
        m["experiment"]["event count"] = ds["n"] + 3
    elif auto == "given":
        m["experiment"]["event count"] = ds["n"]
    if fl:
        lasers = ds["lasers"]
        f = {"bit depth": 16, "channels installed": 3, "lasers installed": 3,
             "sample rate": 312500, "signal max": 1.0, "signal min": -1.0,
             "trace median": 0}
        for ch in ds["fl"]:
            f[f"channel {ch} name"] = f"FL{ch} name"
        for i, ls in enumerate(lasers):
            f[f"laser {ls} lambda"] = [488.0, 561.0, 640.0][ls - 1]
            f[f"laser {ls} power"] = 5.0 + ls
        cnt = len(lasers)
        if ds["zeropower"]:
            # an installed but switched-off laser is not counted
            off = [ls for ls in (1, 2, 3) if ls not in lasers]
            if off:
                f[f"laser {off[0]} lambda"] = 405.0
                f[f"laser {off[0]} power"] = 0.0
        f["laser count"] = cnt
        if auto != "omit":
            f["channel count"] = len(ds["fl"])
        if ds["trace"]:
            if auto.startswith("wrong"):
                f["samples per event"] = ds["trace"]["ns"] + 5
            elif auto == "given":
                f["samples per event"] = ds["trace"]["ns"]
        else:
            f["samples per event"] = 100
        if ds["full"]:
            f["baseline 1 offset"] = 1
        m["fluorescence"] = f
    # ---- writer-level defects (dclab-produced files with incomplete metadata)
    exp = []
    touched = set()
    for d in defects:
        if d["k"] == "omit":
            cands = []
            for sec in ("experiment", "imaging", "setup"):
                for key in MANDATORY[sec]:
                    if key == "event count":
                        continue      # always completed by the writer
                    if key.startswith("roi size") and has_img:
                        continue      # completed by the writer
                    cands.append((sec, key))
            if fl:
                for key in MANDATORY_FL:
                    if key == "channel count":
                        continue
                    if key == "samples per event" and ds["trace"]:
                        continue
                    cands.append(("fluorescence", key))
            sec, key = cands[d["a"] % len(cands)]
            if (sec, key) in touched:
                continue
            touched.add((sec, key))
            m[sec].pop(key, None)
            exp.append(("omit", sec, key))
        elif d["k"] == "nonpos":
            sec, key = NONPOS_KEYS[d["a"] % 4]
            if (sec, key) in touched:
                continue
            touched.add((sec, key))
            m[sec][key] = NONPOS_VALS[d["b"] % len(NONPOS_VALS)]
            exp.append(("nonpos", sec, key))
        elif d["k"] == "zmd":
            exp.append(("zmd", "setup", "identifier"))
    return m, exp


def _store_all(hw, feats, order, lo, hi):
    for nm in order:
        data = feats[nm]
        if nm == "contour":
            hw.store_feature(nm, data[lo:hi])
        elif nm == "trace":
            hw.store_feature(nm, {t: a[lo:hi] for t, a in data.items()})
        else:
            hw.store_feature(nm, data[lo:hi])


def _write_base(path, ds, seed, idx, defects, rec):
    feats = _features(ds, seed)
    zmd = any(d["k"] == "zmd" for d in defects)
    if zmd:
        feats["temp"] = np.zeros(ds["n"])
    m, exp = _meta(ds, idx, defects)
    if zmd:
        m["setup"]["identifier"] = "ZMDD-AcC-8ecba5-cd57e2"
        m["setup"]["temperature"] = 23.0
    route = ds["route"]
    if route == "dict" and ("contour" in feats or "trace" in feats):
        route = "writer"
    rec.cls(f"route:{route}")
    if route == "dict":
        dd = {k: v for k, v in feats.items() if k != "index"}
        with dclab.new_dataset(dd) as dsd:
            for sec, kv in m.items():
                for k, v in kv.items():
                    dsd.config[sec][k] = v
            dsd.export.hdf5(path, features=sorted(dd), filtered=False)
        return exp
    order = sorted(feats)
    rot = seed % len(order)
    order = order[rot:] + order[:rot]
    comp = ds["comp"]
    hw = RTDCWriter(path, mode="append")
    if not ds["meta_late"]:
        hw.store_metadata(m)
    lo = 0
    for r_, k in enumerate(comp):
        _store_all(hw, feats, order, lo, lo + k)
        lo += k
        if ds["reopen"][r_] and r_ < len(comp) - 1:
            hw.__exit__(None, None, None)
            hw = RTDCWriter(path, mode="append")
            rec.cls("writer-reopen")
    if ds["meta_late"]:
        hw.store_metadata(m)
    if ds["log"]:
        lines = [["short line", ""], ["x" * 120, "ü" * 40], ["a", "b", "c" * 99]][
            ds["log"] - 1]
        hw.store_log("vf-log", lines)
    if ds["table"]:
        hw.store_table("vf-tab", {"time": np.arange(4.0), "val": np.ones(4)})
    hw.__exit__(None, None, None)
    if ds["replace"]:
        # ancillary-style replacement of one scalar feature (same length)
        nm = ds["scal"][0]
        with RTDCWriter(path, mode="replace") as hw2:
            hw2.store_feature(nm, feats[nm][::-1].copy())
        rec.cls("writer-replace")
    return exp


def boot_is_dclab_exc(exc):
    """True when the traceback passes through the dclab package"""
    import traceback
    return any("/dclab/" in f.filename
               for f in traceback.extract_tb(exc.__traceback__))


def _mask(bits, n):
    if bits and bits[0] == "K":
        # keep exactly K evenly spread events (K relative to the export chunk of
        # 10 events: one more than one/two/three chunks, or exactly full chunks)
        k = max(1, min(n, int(bits[1])))
        m = np.zeros(n, dtype=bool)
        m[np.round(np.linspace(0, n - 1, k)).astype(int)] = True
        return m
    m = np.array([bits[i % len(bits)] for i in range(n)], dtype=bool)
    if not m.any():
        m[n // 2] = True
    return m


def _apply_op(op, cur, d, k, spec, rec):
    """run one dclab write path on `cur`; returns (new current path, all outputs)"""
    name = op["op"]
    out = d / f"op{k}.rtdc"
    outs = [out]
    note = None
    if name == "compress":
        cli.compress(path_in=str(cur), path_out=str(out))
    elif name == "repack":
        cli.repack(path_in=str(cur), path_out=str(out))
    elif name == "repack_strip":
        cli.repack(path_in=str(cur), path_out=str(out), strip_logs=True,
                   strip_basins=bool(op["a"] % 2))
    elif name == "condense":
        cli.condense(path_in=str(cur), path_out=str(out))
    elif name == "condense_noanc":
        cli.condense(path_in=str(cur), path_out=str(out),
                     store_ancillary_features=False,
                     store_basin_features=bool(op["a"] % 2))
    elif name in ("export", "export_filtered", "export_basins"):
        with dclab.new_dataset(cur) as ds:
            filt = name == "export_filtered" or (name == "export_basins"
                                                 and op["a"] % 2 == 1)
            if filt:
                ds.filter.manual[:] = _mask(op["mask"], len(ds))
                ds.apply_filter()
            feats = ds.features_innate
            if name == "export_basins" and op["a"] % 4 >= 2:
                sc = [f for f in feats if f in ds.features_scalar]
                flm = {f for f in feats if f in ("fl1_max", "fl2_max", "fl3_max")}
                feats = sc[: 1 + op["a"] % 3]
                if flm & set(feats) and flm - set(feats):
                    note = "fl-channel-subset"
            ds.export.hdf5(out, features=feats, filtered=filt,
                           logs=bool(op["a"] % 2), tables=True,
                           basins=(name == "export_basins"))
    elif name == "child_export":
        with dclab.new_dataset(cur) as ds:
            ds.filter.manual[:] = _mask(op["mask"], len(ds))
            ds.apply_filter()
            ch = dclab.new_dataset(ds)
            filt = bool(op["a"] % 2)
            if filt:
                ch.filter.manual[:] = _mask(op["mask"] if op["mask"][0] == "K" else op["mask"][::-1], len(ch))
                ch.apply_filter()
            ch.export.hdf5(out, features=ds.features_innate, filtered=filt,
                           basins=bool(op["a"] % 4 >= 2))
    elif name == "split":
        with dclab.new_dataset(cur) as ds:
            n = len(ds)
        size = [1, 2, 5, 10, 11, 7][op["a"] % 6]
        size = max(1, min(size, n))
        if n // size > 6:
            size = -(-n // 6)
        sd = d / f"split{k}"
        sd.mkdir()
        paths = cli.split(path_in=cur, path_out=sd, split_events=size,
                          ret_out_paths=True)
        outs = [pathlib.Path(p) for p in paths]
        out = outs[op["a"] % len(outs)]
    elif name == "join":
        other = d / f"other{k}.rtdc"
        ds2 = dict(spec["ds"])
        n2 = 1 + (op["a"] % 12)
        ds2.update(n=n2, comp=[n2], reopen=[False], replace=False)
        _write_base(other, ds2, spec["seed2"] + k, 1 + k, spec["defects"], rec)
        order = [cur, other] if op["a"] % 2 else [other, cur]
        cli.join(paths_in=[str(p) for p in order], path_out=str(out))
    else:
        raise AssertionError(name)
    rec.cls(f"op:{name}")
    return out, outs, note


# ---------------------------------------------------------------- checker access

def _check(path):
    """(violations, alerts, info) or the exception check_dataset raised"""
    try:
        return check_dataset(path), None
    except Exception as e:  # noqa - reported with its own signature by the caller
        return None, e


def _where(exc):
    import traceback
    fr = [f for f in traceback.extract_tb(exc.__traceback__)
          if "/dclab/" in f.filename]
    return fr[-1].name if fr else "harness"


def _cli_exit(path):
    with quiet():
        try:
            cli.verify_dataset(path_in=pathlib.Path(path))
        except SystemExit as e:
            return e.code
    return None


def _closure(rec, path, tag):
    res, exc = _check(path)
    if exc is not None:
        rec.fail(f"closure/raises/{type(exc).__name__}/{tag}",
                 f"check_dataset raised {exc!r} in {_where(exc)} for a file produced "
                 f"by {tag}")
        return None
    rec.check(res[0] == [], f"closure/violations/{tag}",
              lambda: f"file produced by {tag} is reported with violations {res[0]}")
    # auxiliary (alert level): RTDCWriter.write_image_grayscale documents that it
    # adds the HDF5 image attributes the checker looks for
    bad = [a for a in res[1] if a.startswith("HDF5: '/") and "attribute" in a]
    rec.check(not bad, f"closure/image-attribute-alerts/{tag.split('/')[0]}",
              lambda: f"file produced by {tag}: {bad}")
    return res


# ---------------------------------------------------------------- corruptions

def _h5_features(h5):
    ev = h5["events"]
    out = []
    for nm in sorted(ev):
        if nm == "trace":
            out += [f"trace/{t}" for t in sorted(ev["trace"])]
        else:
            out.append(nm)
    return out


def _set_len(h5, name, new):
    """change the number of events of a dataset (re-created when its maximal
    shape is fixed, as in files written by the copy tools)"""
    dset = h5[name]
    if dset.maxshape[0] is None:
        dset.resize(new, axis=0)
        return
    data = dset[:]
    attrs = dict(dset.attrs)
    if new <= len(data):
        data = data[:new]
    else:
        pad = np.repeat(data[-1:], new - len(data), axis=0)
        data = np.concatenate([data, pad])
    del h5[name]
    nd = h5.create_dataset(name, data=data, maxshape=(None,) + data.shape[1:],
                           chunks=(max(1, min(10, len(data))),) + data.shape[1:])
    for k, v in attrs.items():
        nd.attrs[k] = v


def _apply_corruption(h5, c, d, touched, info):
    """apply one corruption; returns None (not applicable / conflict) or an
    expectation dict {cls, need:[(category, [substrings])...], kf: str|None}"""
    kind, a, b, cc = c["k"], c["a"], c["b"], c["c"]
    ev = h5["events"]
    n = info["n"]
    fl = info["fl"]

    def claim(*tokens):
        if any(t in touched for t in tokens):
            return False
        touched.update(tokens)
        return True

    if kind == "len_feat":
        feats = _h5_features(h5)
        feats = [f for f in feats if not f.startswith("basinmap")]
        f = feats[a % len(feats)]
        if "attr:experiment:event count" in touched or "len" in touched:
            return None
        if f == "index" and "index-len" in touched:
            return None
        if f"ds:events/{f}" in touched or not claim(f"ds:{f}"):
            return None       # (object added by another corruption)
        touched.add("len")
        if f == "index":
            touched.add("index-len")
        choice = b % 8
        if f == "contour":
            grp = ev["contour"]
            if choice < 4 and n > 1:
                k = 1 + cc % (n - 1)
                for i in range(n - k, n):
                    del grp[str(i)]
                how = "shorter"
            else:
                k = 1 + cc % 3
                for i in range(n, n + k):
                    grp.create_dataset(str(i), data=np.ones((4, 2), dtype=np.int64))
                how = "longer"
            return {"cls": f"len_feat/contour/{how}", "kf": "contour",
                    "need": [("feature size", ["wrong event count: 'contour'"])]}
        if choice == 3:
            new, how = 0, "empty"
        elif choice < 5 and n > 1:
            new, how = 1 + cc % (n - 1), "shorter"
        else:
            new, how = n + 1 + cc % 5, "longer"
        _set_len(h5, f"events/{f}", new)
        fkind = ("trace" if f.startswith("trace/") else
                 "index" if f == "index" else
                 f if f in IMG_FEATS else
                 "flmax" if f.endswith("_max") else "scalar")
        kf = None
        if f == "index":
            kf = "index-length"
        elif how == "empty" and fkind == "trace" and fl:
            kf = "empty-trace"
        elif how == "empty" and fkind == "flmax":
            kf = "empty-flmax"
        return {"cls": f"len_feat/{fkind}/{how}", "kf": kf,
                "need": [("feature size", [f"wrong event count: '{f}'"])]}

    if kind == "evcount":
        if "len" in touched or "attr:experiment:event count" not in \
                {f"attr:{k}" for k in h5.attrs}:
            return None
        if not claim("attr:experiment:event count"):
            return None
        touched.update({"len", "index-len"})
        delta = [-2, -1, 1, 2, 5, -5][a % 6]
        new = n + delta
        if new < 1:
            new = n + abs(delta)
        h5.attrs["experiment:event count"] = new
        need = []
        for f in _h5_features(h5):
            if f in ("contour", "index") or f.startswith("basinmap"):
                continue
            if f"ds:{f}" in touched or f"ds:events/{f}" in touched:
                continue      # object added by another corruption
            need.append(("feature size", [f"wrong event count: '{f}'"]))
            touched.add(f"lenexp:{f}")
        kf = "index-length" if "index" in ev else None
        if not need:
            return {"cls": "evcount/only-contour-or-index", "kf": kf, "need": [],
                    "unobservable": True}
        return {"cls": "evcount/" + ("more" if new > n else "less"), "kf": kf,
                "need": need}

    if kind == "roi":
        present = [f for f in IMG_FEATS if f in ev]
        if not present:
            return None
        axis = "xy"[a % 2]
        key = f"imaging:roi size {axis}"
        if key not in h5.attrs or not claim(f"attr:{key}"):
            return None
        true = ev[present[0]].shape[2 if axis == "x" else 1]
        new = true + [1, -1, 7, 100][b % 4]
        if new == true or new < 0:
            new = true + 1
        h5.attrs[key] = new
        return {"cls": f"roi/{axis}", "kf": None,
                "need": [("metadata wrong", [f"'roi size {axis}'", f"feature {f} "])
                         for f in present],
                "cfg": ("imaging", f"roi size {axis}")}

    if kind == "unknown":
        name = UNKNOWN_NAMES[a % len(UNKNOWN_NAMES)]
        if name in ev or not claim(f"ds:{name}"):
            return None
        if b % 4 == 0:
            ev.create_group(name)
            how = "group"
        elif b % 4 == 1:
            ev.create_dataset(name, data=np.zeros((n, 2, 2)))
            how = "nd"
        else:
            ev.create_dataset(name, data=np.arange(n, dtype=float))
            how = "scalar"
        return {"cls": f"unknown/{how}", "kf": None,
                "need": [("feature unknown", [f"'{name}'"])]}

    if kind == "del_meta":
        cands = [(s, k) for s in ("experiment", "imaging", "setup")
                 for k in MANDATORY[s]]
        if fl:
            cands += [("fluorescence", k) for k in MANDATORY_FL]
        if b % 6 == 0:
            secs = ["experiment", "imaging", "setup"] + (["fluorescence"] if fl else [])
            sec = secs[a % len(secs)]
            keys = [k for k in h5.attrs if k.startswith(sec + ":")]
            toks = [f"attr:{k}" for k in keys]
            if not keys or any(t in touched for t in toks) or \
                    any(t.startswith(f"attr:{sec}:") for t in touched) or \
                    (sec == "experiment" and "len" in touched):
                # (also when a key of this section was already deleted: the checker
                # then reports the missing section, not the individual key)
                return None
            touched.update(toks)
            touched.add(f"sec:{sec}")
            if sec == "experiment":
                touched.update({"len", "index-len"})
            for k in keys:
                del h5.attrs[k]
            mand = MANDATORY_FL if sec == "fluorescence" else MANDATORY[sec]
            return {"cls": f"del_meta/section/{sec}", "kf": None,
                    "need": [("metadata missing", [f"[{sec}] '{k}'"]) for k in mand],
                    "alt_section": sec}
        sec, key = cands[a % len(cands)]
        attr = f"{sec}:{key}"
        if attr not in h5.attrs:
            return None
        if key == "event count" and "len" in touched:
            return None
        if not claim(f"attr:{attr}"):
            return None
        if key == "event count":
            touched.update({"len", "index-len"})
        del h5.attrs[attr]
        return {"cls": f"del_meta/key/{sec}", "kf": None,
                "need": [("metadata missing", [f"[{sec}] '{key}'"])],
                "cfg": (sec, key)}

    if kind == "bad_index":
        if "index-len" in touched or not claim("ds:index"):
            return None
        touched.add("index-len")
        idx = np.arange(1, n + 1)
        var = a % 5
        if var == 0 or n == 1:
            idx = idx - 1
            how = "zero-based"
        elif var == 1:
            i = b % (n - 1)
            idx[i], idx[i + 1] = idx[i + 1], idx[i]
            how = "swapped"
        elif var == 2:
            idx[b % n:] += 1
            how = "gap"
        elif var == 3:
            idx[:] = 1
            how = "constant"
        else:
            idx = idx[::-1].copy()
            if n == 1:
                idx = idx + 1
            how = "reversed"
        if np.array_equal(idx, np.arange(1, n + 1)):
            idx = idx + 1
        if "index" in ev:
            ev["index"][:] = idx
            stored = "stored"
        else:
            ev.create_dataset("index", data=idx.astype(np.uint32))
            stored = "added"
        return {"cls": f"bad_index/{how}/{stored}", "kf": None,
                "need": [("feature data", ["index feature"])]}

    if kind == "fl_chan":
        if not fl or "sec:fluorescence" in touched:
            return None
        chans = [i for i in (1, 2, 3) if f"fl{i}_max" in ev
                 and f"fluorescence:channel {i} name" in h5.attrs]
        key = "fluorescence:channel count"
        if key not in h5.attrs:
            return None
        if a % 4 == 2 and len(chans) >= 2:
            # the data lose a channel the metadata still announce (with a single
            # channel the file would stop being a fluorescence file)
            ch = chans[b % len(chans)]
            if f"attr:{key}" in touched or f"lenexp:fl{ch}_max" in touched \
                    or not claim(f"ds:fl{ch}_max"):
                return None
            touched.add(f"attr:{key}")
            touched.add(f"attr:fluorescence:channel {ch} name")
            del ev[f"fl{ch}_max"]
            how = "flmax-deleted"
        elif a % 4 == 0 and chans:
            ch = chans[b % len(chans)]
            nk = f"fluorescence:channel {ch} name"
            if f"attr:{key}" in touched:
                return None
            if not claim(f"attr:{nk}"):
                return None
            touched.add(f"attr:{key}")
            del h5.attrs[nk]
            how = "name-deleted"
        else:
            if not claim(f"attr:{key}"):
                return None
            for i in (1, 2, 3):
                touched.add(f"attr:fluorescence:channel {i} name")
            true = len(chans)
            new = [true + 1, true - 1, 0, 3][b % 4]
            if new == true or new < 0:
                new = true + 1
            h5.attrs[key] = new
            how = "count-changed"
        return {"cls": f"fl_chan/{how}", "kf": None,
                "need": [("metadata wrong", ["channel count"])],
                "cfg": ("fluorescence", "channel count")}

    if kind == "fl_laser":
        if not fl or "sec:fluorescence" in touched:
            return None
        key = "fluorescence:laser count"
        if key not in h5.attrs or f"attr:{key}" in touched:
            return None
        lasers = [i for i in (1, 2, 3)
                  if f"fluorescence:laser {i} lambda" in h5.attrs
                  and f"fluorescence:laser {i} power" in h5.attrs
                  and h5.attrs[f"fluorescence:laser {i} power"] != 0]
        toks = [f"attr:fluorescence:laser {i} {w}" for i in (1, 2, 3)
                for w in ("lambda", "power")]
        if any(t in touched for t in toks):
            return None
        touched.update(toks)
        touched.add(f"attr:{key}")
        var = a % 4
        if var == 0 and lasers:
            ls = lasers[b % len(lasers)]
            h5.attrs[f"fluorescence:laser {ls} power"] = 0.0
            how = "power-zero"
        elif var == 1 and lasers:
            ls = lasers[b % len(lasers)]
            del h5.attrs[f"fluorescence:laser {ls} " + ("lambda", "power")[b % 2]]
            how = "laser-key-deleted"
        elif var == 2 and len(lasers) < 3:
            free = [i for i in (1, 2, 3) if i not in lasers][0]
            h5.attrs[f"fluorescence:laser {free} lambda"] = 375.0
            h5.attrs[f"fluorescence:laser {free} power"] = 1.5
            how = "laser-added"
        else:
            true = len(lasers)
            new = [true + 1, true - 1, 3, 0][b % 4]
            if new == true or new < 0:
                new = true + 1
            h5.attrs[key] = new
            how = "count-changed"
        return {"cls": f"fl_laser/{how}", "kf": None,
                "need": [("metadata wrong", ["laser count"])],
                "cfg": ("fluorescence", "laser count")}

    if kind == "fl_spe":
        if not fl or "trace" not in ev or not len(ev["trace"]):
            return None
        key = "fluorescence:samples per event"
        if key not in h5.attrs or "sec:fluorescence" in touched:
            return None
        if any(f"ds:trace/{t}" in touched for t in ev["trace"]):
            return None
        if not claim(f"attr:{key}"):
            return None
        for t in ev["trace"]:
            touched.add(f"ds:trace/{t}")
        true = int(h5.attrs[key])
        new = true + [1, -1, 10, 1000][a % 4]
        if new < 0:
            new = true + 1
        h5.attrs[key] = new
        return {"cls": "fl_spe", "kf": None,
                "need": [("metadata wrong", ["samples per event", f" {t} "])
                         for t in sorted(ev["trace"])],
                "cfg": ("fluorescence", "samples per event")}

    if kind == "ext":
        var = a % 8
        free = [f for f in ("area_msd", "aspect", "bright_sd", "tilt", "userdef3")
                if f not in ev]
        where = ["events", "events", "logs", "top", "tables", "contour-item",
                 "trace-item"][b % 7]
        if where == "contour-item" and not ("contour" in ev and len(ev["contour"])):
            where = "events"
        if where == "trace-item" and not ("trace" in ev and len(ev["trace"])):
            where = "events"
        d = pathlib.Path(h5.filename).parent    # relative links resolve here
        tgt = d / f"ext{len(touched)}.h5"
        if var <= 5:
            with h5py.File(tgt, "w") as e:
                e["d"] = np.arange(n, dtype=float)
                e["l"] = np.array([b"line"], dtype="S100")
        if var in (0, 1, 2):
            if where == "events":
                name = f"events/{free[cc % len(free)]}"
                src = "/d"
            elif where == "logs":
                name, src = "logs/ext-log", "/l"
            elif where == "tables":
                name, src = "tables/ext-tab", "/d"
            elif where in ("contour-item", "trace-item"):
                # one member of a feature *group* is a link (same data behind it)
                grp = ev["contour" if where == "contour-item" else "trace"]
                keys = sorted(grp.keys())
                k = keys[cc % len(keys)]
                name, src = f"{grp.name.lstrip('/')}/{k}", "/m"
                if not claim(f"ds:{name}"):
                    return None
                with h5py.File(tgt, "a") as e:
                    e["m"] = np.array(grp[k])
                del h5[name]
                h5[name] = h5py.ExternalLink(str(tgt) if var else tgt.name, src)
                return {"cls": f"ext/link/{where}", "kf": None,
                        "need": [("format HDF5", ["external link"])]}
            else:
                name, src = "ext-group", "/"
            if name in h5 or not claim(f"ds:{name}"):
                return None
            h5[name] = h5py.ExternalLink(str(tgt) if var else tgt.name, src)
            return {"cls": f"ext/link/{where}", "kf": None,
                    "need": [("format HDF5", ["external link"])]}
        name = f"events/{free[cc % len(free)]}"
        if not claim(f"ds:{name}"):
            return None
        if var in (3, 4):
            lay = h5py.VirtualLayout(shape=(n,), dtype=float)
            lay[:] = h5py.VirtualSource(str(tgt), "d", shape=(n,))
            h5.create_virtual_dataset(name, lay)
            return {"cls": "ext/virtual", "kf": None,
                    "need": [("format HDF5", ["external link"])]}
        if var == 5:
            raw = d / f"raw{len(touched)}.bin"
            np.arange(n, dtype=float).tofile(raw)
            h5.create_dataset(name, shape=(n,), dtype=float,
                              external=[(str(raw), 0, n * 8)])
            return {"cls": "ext/external-storage", "kf": None,
                    "need": [("format HDF5", ["external link"])]}
        # dangling link (target file does not exist)
        touched.discard(f"ds:{name}")
        if where in ("contour-item", "trace-item"):
            where = "events"     # dangling links inside feature groups: not generated
        name = {"events": name, "logs": "logs/ext-log", "tables": "tables/ext-tab",
                "top": "ext-group"}[where]
        if name in h5 or not claim(f"ds:{name}"):
            return None
        h5[name] = h5py.ExternalLink(str(d / "does-not-exist.h5"), "/d")
        return {"cls": f"ext/dangling/{where}", "kf": f"dangling-link/{where}",
                "need": [("format HDF5", ["external link"])]}

    if kind == "nonpos":
        sec, key = NONPOS_KEYS[a % 4]
        attr = f"{sec}:{key}"
        if attr not in h5.attrs or not claim(f"attr:{attr}"):
            return None
        val = NONPOS_VALS[b % len(NONPOS_VALS)]
        if cc % 5 == 0:
            h5.attrs[attr] = np.float32(val)
        elif cc % 5 == 1 and val == int(val):
            h5.attrs[attr] = int(val)
        else:
            h5.attrs[attr] = val
        return {"cls": f"nonpos/{sec}", "kf": None,
                "need": [("metadata wrong", [f"[{sec}] '{key}'"])],
                "cfg": (sec, key)}
    raise AssertionError(kind)


def _judge(rec, path, exps, dclab_made):
    """run checker + CLI on `path`, assert expectations"""
    tags = sorted({e["kf"] for e in exps if e.get("kf")})
    classes = sorted({e["cls"].split("/")[0] for e in exps})
    res, exc = _check(path)
    code = _cli_exit(path)
    if exc is not None:
        where = _where(exc)
        cls = "+".join(classes) or "valid-file"
        dl = [t for t in tags if t.startswith("dangling-link/")]
        if dl and isinstance(exc, KeyError):
            cls = dl[0]
        for t in tags:
            if KF_SITE.get(t) == where:
                cls = t
        site = "" if cls.startswith("dangling-link/") else f"{where}/"
        rec.fail(f"raises/{type(exc).__name__}/{site}{cls}",
                 f"check_dataset raised {exc!r} (in {_where(exc)}) instead of "
                 f"reporting; applied: {[e['cls'] for e in exps]}")
        rec.check(code == 4, "cli/exit-code/checker-raised",
                  f"verify_dataset exit code {code}, expected 4 (other error)")
        rec.cls("exit:4")
        rec.skip("expectations-unjudged:checker-raised", len(exps))
        return None
    viol, aler, info = res
    # ---- the two public entry points agree
    try:
        with IntegrityChecker(path) as ic:
            cues = ic.check(expand_section=False)
    except Exception as e:  # noqa
        rec.fail(f"raises/{type(e).__name__}/integritychecker-only",
                 f"IntegrityChecker.check raised {e!r} although check_dataset "
                 f"returned")
        cues = None
    if cues is not None:
        for lv, got in (("violation", viol), ("alert", aler), ("info", info)):
            want = sorted(c.msg for c in cues if c.level == lv)
            rec.check(sorted(got) == want, f"api/partition/{lv}",
                      lambda: f"check_dataset {lv}s {got} != cues {want}")
        rec.check(all(c.level in ("violation", "alert", "info") for c in cues),
                  "api/levels", "unknown cue level")
    # ---- expectations
    for e in exps:
        if e.get("unobservable"):
            rec.skip("evcount-without-sized-feature")
            continue
        sig = f"missed/{e['cls']}"
        alt = e.get("alt_section")
        if alt and any(f"Missing section '{alt}'" in v for v in viol):
            ok_cue = cues is None or any(
                c.level == "violation" and c.category == "metadata missing"
                and c.cfg_section == alt for c in cues)
            rec.check(ok_cue, f"cue/{e['cls']}", "section cue without cfg_section")
            continue
        for cat, subs in e["need"]:
            hit = [v for v in viol if all(s in v + " " for s in subs)]
            rec.check(bool(hit), sig,
                      lambda: f"corruption {e['cls']} not reported: expected a "
                              f"violation mentioning {subs}; violations={viol}, "
                              f"alerts={aler[:6]}")
            if hit and cues is not None:
                cs = [c for c in cues if c.msg in hit and c.level == "violation"]
                okc = any(c.category == cat for c in cs)
                if okc and e.get("cfg"):
                    okc = any((c.cfg_section, c.cfg_key) == tuple(e["cfg"])
                              for c in cs)
                rec.check(okc, f"cue/{e['cls']}",
                          lambda: f"cue for {subs}: category/section/key "
                                  f"{[(c.category, c.cfg_section, c.cfg_key) for c in cs]}"
                                  f" expected {cat} {e.get('cfg')}")
    # ---- CLI exit code
    want = 3 if (viol and aler) else 2 if viol else 1 if aler else 0
    rec.check(code == want, "cli/exit-code/" + ("dclab-file" if dclab_made
                                                else "corrupted-file"),
              lambda: f"verify_dataset exit code {code}, documented {want} for "
                      f"{len(viol)} violations / {len(aler)} alerts")
    rec.cls(f"exit:{want}")
    return res


# ---------------------------------------------------------------- interpreter

def run_case(spec, rec):
    d = boot.casedir()
    try:
        with chunk_bytes(spec["chunk"]), quiet():
            _run(spec, rec, d)
    finally:
        boot.rmcase(d)


def _defect_expectations(defexp):
    out = []
    for k, sec, key in defexp:
        if k == "omit":
            out.append({"cls": f"defect/omit/{sec}", "kf": None, "cfg": (sec, key),
                        "need": [("metadata missing", [f"[{sec}] '{key}'"])]})
        elif k == "nonpos":
            out.append({"cls": f"defect/nonpos/{sec}", "kf": None, "cfg": (sec, key),
                        "need": [("metadata wrong", [f"[{sec}] '{key}'"])]})
        else:
            out.append({"cls": "defect/zmd-temp-zero", "kf": None,
                        "need": [("feature data", ["'temp'", "all-zero"])]})
    return out


def _run(spec, rec, d):
    mode = spec["mode"]
    ds = spec["ds"]
    rec.cls(f"mode:{mode}")
    base = d / "base.rtdc"
    defexp = _write_base(base, ds, ds["seed"], 0, spec["defects"], rec)
    for k, _, _ in defexp:
        rec.cls(f"defect:{k}")
    valid = not defexp
    if ds["auto"] != "given":
        rec.cls(f"auto:{ds['auto']}")
    if valid:
        _closure(rec, base, f"base/{'dict-export' if ds['route'] == 'dict' else 'writer'}")
    cur = base
    nops = 0
    tainted = False
    omitted = {key for k_, sec, key in defexp if k_ == "omit"}
    for k, op in enumerate(spec["ops"]):
        if op["op"] in ("split", "join") and omitted & TOOL_KEYS:
            # dclab-split / dclab-join read these keys themselves
            rec.skip(f"op-needs-omitted-metadata:{op['op']}")
            continue
        try:
            cur, outs, note = _apply_op(op, cur, d, k, spec, rec)
        except BaseException as e:  # noqa (dclab has BaseException subclasses)
            if isinstance(e, (KeyboardInterrupt, SystemExit, MemoryError)):
                raise
            # a write path that fails produces no file to be judged by the
            # checker; such failures belong to C02/C07/C08/C09/C14 (e.g. ragged
            # basin features through dclab-condense) and are only counted here
            if not boot_is_dclab_exc(e):
                raise
            rec.skip(f"write-path-raised:{op['op']}:{type(e).__name__}")
            continue
        nops += 1
        if valid and note:
            # exporting some but not all fl?_max channels: judged once under its
            # own signature; files derived from it inherit the metadata
            for p in outs:
                _closure(rec, p, f"{op['op']}/{note}")
            valid = False
            tainted = True
            rec.cls(f"note:{note}")
        elif valid:
            for p in outs:
                _closure(rec, p, op["op"])
        elif tainted:
            rec.skip("closure-unjudged-after-fl-channel-subset")
    if nops + 1 >= 2:
        rec.cls("chain>=2")
    if nops + 1 >= 3:
        rec.cls("chain>=3")

    if mode != "corrupt":
        exps = _defect_expectations(defexp)
        with h5py.File(cur, "r") as h5:
            names = set(h5.get("events", {}))
        keep = []
        for e in exps:
            # a chain may have dropped the features that make a key mandatory
            if (e["cls"] == "defect/omit/fluorescence"
                    and not names & {"fl1_max", "fl2_max", "fl3_max"}) or \
                    (e["cls"] == "defect/zmd-temp-zero" and "temp" not in names):
                rec.skip("defect-no-longer-applicable-after-chain")
            else:
                keep.append(e)
        exps = keep
        res = _judge(rec, cur, exps, True)
        if nops >= 1:
            rec.nontrivial()
        if spec["copies"] and res is not None:
            rec.cls("copies-compared")
            for tool in ("compress", "repack"):
                cp = d / f"copy_{tool}.rtdc"
                getattr(cli, tool)(path_in=str(cur), path_out=str(cp))
                r2, exc = _check(cp)
                if exc is not None:
                    rec.fail(f"copy/raises/{type(exc).__name__}/{tool}",
                             f"check_dataset raised {exc!r} for the {tool} copy")
                    continue
                tag = "valid" if (valid or tainted) else "defect"
                rec.check(r2[0] == res[0], f"copy/violations-differ/{tool}/{tag}",
                          lambda: f"violations of the file {res[0]} != violations "
                                  f"of its {tool} copy {r2[0]}")
        if res is not None:
            with h5py.File(cur, "r") as h5:
                has_basins = "basins" in h5 and len(h5["basins"]) > 0
            if has_basins:
                rec.skip("instance-vs-path:file-with-basins")
            else:
                # documented alternative argument: an RTDCBase instance
                with dclab.new_dataset(cur) as dsi:
                    ri = check_dataset(dsi)
                rec.check(ri[0] == res[0], "api/instance-vs-path/violations",
                          lambda: f"check_dataset(ds) {ri[0]} != check_dataset(path) "
                                  f"{res[0]}")
        if spec.get("cli_missing"):
            code = _cli_exit(d / "no-such-file.rtdc")
            rec.check(code == 4, "cli/exit-code/missing-file", f"exit code {code}")
        return

    # ---- corrupt mode
    with h5py.File(cur, "r") as h5:
        info = {"n": None, "fl": any(f"fl{i}_max" in h5["events"] for i in (1, 2, 3))}
        sc = [f for f in h5["events"] if isinstance(h5["events"][f], h5py.Dataset)]
        info["n"] = int(h5["events"][sorted(sc)[0]].shape[0])
    touched = set()
    exps = []
    with h5py.File(cur, "a") as h5:
        for c in spec["corrupt"]:
            e = _apply_corruption(h5, c, d, touched, info)
            if e is None:
                rec.skip(f"corruption-not-applicable-or-conflict:{c['k']}")
                continue
            exps.append(e)
            rec.cls(f"cor:{c['k']}")
            rec.cls(f"corcls:{e['cls']}")
    if len(exps) >= 2:
        rec.cls("paired")
        rec.nontrivial()
    if not exps:
        rec.skip("no-corruption-applied")
    _judge(rec, cur, exps, not exps)
