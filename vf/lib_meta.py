"""Independent metadata model for C11: own transcription of the documented key
table (section, key, kind), value-representation builder, own normalisation
and comparison helpers.  Does not import dclab."""
import math

import numpy as np

# kind letters: S str, L lower-case str, F float, I int, B bool, X bool-or-float,
#               P pair of floats, N list of ints, A float array (pattern keys only),
#               R raw/no conversion (range keys), U user (stored as is)
_TABLE = """
experiment: date S; event count I; run index I; run identifier S; sample S; time S; timestamp F
fluorescence: baseline 1 offset I; baseline 2 offset I; baseline 3 offset I; bit depth I; channel 1 name S; channel 2 name S; channel 3 name S; channel count I; channels installed I; laser 1 lambda F; laser 1 power F; laser 2 lambda F; laser 2 power F; laser 3 lambda F; laser 3 power F; laser count I; lasers installed I; sample rate I; samples per event I; signal max F; signal min F; trace median I
fmt_tdms: video frame offset I
imaging: flash device S; flash duration F; frame rate F; pixel size F; roi position x I; roi position y I; roi size x I; roi size y I
online_contour: bg empty B; bin area min I; bin kernel I; bin threshold I; image blur I; no absdiff B
online_filter: target duration F; target event count I
pipeline: dcnum background S; dcnum data S; dcnum feature S; dcnum gate S; dcnum generation S; dcnum hash S; dcnum mapping S; dcnum segmenter S; dcnum yield I
qpi: wavelength F; medium index F; pixel size raw F; software version S; bg method S; padding I; subtract mean B; filter name S; filter size F; scale to filter X; sideband freq P; invert phase B; pixel size proc F; amp fit offset S; amp fit profile S; pha fit offset S; pha fit profile S; amp border px I; pha border px I; amp border loc S; pha border loc S; focus interval P; focus metric S; focus minimizer S; focus kernel S; focus padding I
setup: channel width F; chip identifier L; chip region L; flow rate F; flow rate sample F; flow rate sheath F; identifier S; medium S; module composition S; software version S; temperature F
filtering: hierarchy parent S; remove invalid events B; enable filters B; limit events I; polygon filters N
calculation: emodulus lut S; emodulus medium S; emodulus temperature F; emodulus viscosity F; emodulus viscosity model S; crosstalk fl21 F; crosstalk fl31 F; crosstalk fl12 F; crosstalk fl32 F; crosstalk fl13 F; crosstalk fl23 F
"""

TABLE = {}
for _ln in _TABLE.strip().splitlines():
    _sec, _rest = _ln.split(":", 1)
    TABLE[_sec.strip()] = {}
    for _it in _rest.split(";"):
        _it = _it.strip()
        TABLE[_sec.strip()][_it[:-2]] = _it[-1]

#: sections that are written to .rtdc files (fmt_tdms is dropped by the writer)
FILE_SECTIONS = ["experiment", "fluorescence", "imaging", "online_contour",
                 "online_filter", "pipeline", "qpi", "setup"]
ANALYSIS_SECTIONS = ["filtering", "calculation"]
FILTER_DEFAULTS = {"remove invalid events": False, "enable filters": True,
                   "limit events": 0, "polygon filters": [],
                   "hierarchy parent": "none"}
#: scalar features used for the pattern keys
PFEATS = ["area_um", "deform", "bright_avg", "fl1_max", "aspect", "size_x"]

KINDNAME = {"S": "str", "L": "lcstr", "F": "float", "I": "int", "B": "bool",
            "X": "boolfloat", "P": "pair", "N": "intlist", "A": "floatarray",
            "R": "raw", "U": "user"}


def kind_of(sec, key):
    """kind letter of a lower-case key or None (unknown)"""
    if sec == "user":
        return "U" if isinstance(key, str) and key.strip() else None
    if not isinstance(key, str):
        return None
    k = TABLE.get(sec, {}).get(key)
    if k:
        return k
    if sec in ("online_filter", "filtering"):
        head, _, tail = key.partition(" ")
        if sec == "online_filter" and "," in head:
            fs = head.split(",")
            if len(fs) == 2 and all(f in PFEATS for f in fs):
                if tail == "polygon points":
                    return "A"
                if tail == "soft limit":
                    return "B"
            return None
        if head in PFEATS:
            if tail in ("min", "max"):
                return "R"
            if sec == "online_filter" and tail == "soft limit":
                return "B"
    return None


# ------------------------------------------------------------------ values

def build(rep):
    """JSON representation spec -> python object"""
    t = rep["t"]
    v = rep.get("v")
    if t == "none":
        return None
    if t == "str":
        return str(v)
    if t == "npstr":
        return np.str_(v)
    if t == "bytes":
        return str(v).encode("utf-8")
    if t == "npbytes":
        return np.bytes_(str(v).encode("utf-8"))
    if t == "int":
        return int(v)
    if t == "float":
        return float(v)
    if t == "bool":
        return bool(v)
    if t == "np":
        return np.dtype(rep["dt"]).type(v)
    if t == "arr0":
        return np.array(v, dtype=rep["dt"])
    if t == "arr":
        return np.array(v, dtype=rep["dt"])
    if t == "list":
        return _unjson(v)
    if t == "tuple":
        return tuple(_unjson(v))
    raise ValueError(t)


def _unjson(v):
    if isinstance(v, list):
        return [_unjson(x) for x in v]
    return v


def reptype(rep):
    t = rep["t"]
    if t in ("np", "arr0", "arr"):
        dt = np.dtype(rep["dt"])
        k = {"b": "bool", "i": "int", "u": "int", "f": "float"}.get(dt.kind, dt.kind)
        return f"{t}-{k}"
    if t in ("str", "npstr"):
        v = str(rep["v"])
        if v == "":
            return t + "-empty"
        if v.strip().lower() in ("true", "false"):
            return t + "-truefalse"
        if _fstr(v) is not None:
            return t + "-numeric"
        return t
    return t


def _fstr(s):
    try:
        return float(s)
    except (ValueError, TypeError):
        return None


def _scalar(obj):
    """python number for bool/int/float/numpy scalar/0-d numeric array else None"""
    if isinstance(obj, (bool, int, float)):
        return obj
    if isinstance(obj, np.generic) and obj.dtype.kind in "biuf":
        return obj.item()
    if isinstance(obj, np.ndarray) and obj.ndim == 0 and obj.dtype.kind in "biuf":
        return obj.item()
    return None


def _to_int(x):
    """number -> truncated int, None if not representable / out of the exact range"""
    f = float(x)
    if f != f or f in (math.inf, -math.inf) or abs(f) > 2**53:
        return None
    if isinstance(x, int) and not isinstance(x, bool):
        return int(x)
    return int(math.trunc(f))


def _int_elem(e):
    """element of an int list / int value: ('ok', int) | ('bad',)"""
    if isinstance(e, str):
        low = e.lower()
        if low == "true":
            return ("ok", 1)
        if low == "false":
            return ("ok", 0)
        f = _fstr(low)
        if f is None:
            return ("bad",)
        i = _to_int(f)
        return ("ok", i) if i is not None else ("bad",)
    x = _scalar(e)
    if x is None:
        return ("bad",)
    i = _to_int(x)
    return ("ok", i) if i is not None else ("bad",)


def _arr_rec(o):
    if isinstance(o, np.ndarray):
        if o.dtype.kind not in "biuf":
            raise ValueError
        return o.astype(np.float64).tolist()
    if isinstance(o, (list, tuple)):
        return [_arr_rec(x) for x in o]
    if isinstance(o, str):
        f = _fstr(o)
        if f is None:
            raise ValueError
        return f
    x = _scalar(o)
    if x is None:
        raise ValueError
    return float(x)


def _shape(o):
    if isinstance(o, list):
        if not o:
            return (0,)
        shs = {_shape(x) for x in o}
        if len(shs) != 1:
            raise ValueError
        return (len(o),) + shs.pop()
    return ()


def norm(kind, obj, via="cfg"):
    """Own normalisation.  Returns (status, value, disc):
    status 'ok' (must be stored as `value`), 'lenient' (not a valid
    representation: either raises and stores nothing or stores a value of the
    documented type), 'reject-empty', 'reject-none'.  `disc` names a known
    problematic input class (or None)."""
    if via == "wr" and isinstance(obj, bytes):
        obj = obj.decode("utf-8")
    if obj is None:
        return ("reject-none", None, None)
    if isinstance(obj, str) and len(obj) == 0:
        return ("reject-empty", None, None)
    isb = isinstance(obj, bytes)
    if kind in ("R", "U"):
        return ("ok", obj, None)
    if kind == "S":
        if isinstance(obj, str):
            return ("ok", str(obj), None)
        if isb:
            return ("ok", obj.decode("utf-8"), "str/bytes")
        if isinstance(obj, (bool, int, float, np.generic)):
            return ("ok", str(obj), None)
        return ("lenient", None, None)
    if kind == "L":
        if isinstance(obj, str):
            return ("ok", str(obj).lower(), None)
        if isb:
            return ("ok", obj.decode("utf-8").lower(), "lcstr/bytes")
        return ("lenient", None, None)
    if kind in ("F", "I", "B"):
        if isinstance(obj, str) or isb:
            s = obj.decode("utf-8", "replace") if isb else str(obj)
            low = s.lower()
            if kind in ("I", "B") and not isb and low in ("true", "false"):
                return ("ok", (low == "true") if kind == "B" else int(low == "true"),
                        None)
            x = _fstr(low if kind != "F" else s)
            if x is None:
                return ("lenient", None, None)
        else:
            x = _scalar(obj)
            if x is None:
                return ("lenient", None, None)
        if kind == "F":
            return ("ok", float(x), None)
        if kind == "I":
            i = _to_int(x)
            return ("ok", i, None) if i is not None else ("lenient", None, None)
        if float(x) != float(x):
            return ("lenient", None, None)
        return ("ok", bool(float(x) != 0), None)
    if kind == "X":
        if type(obj) is bool:
            return ("ok", obj, None)
        if isinstance(obj, np.bool_):
            return ("ok", bool(obj), "boolfloat/np-bool-true" if bool(obj) else None)
        if isinstance(obj, str):
            low = obj.lower()
            if low in ("true", "false"):
                return ("ok", low == "true", None)
            return ("lenient", None, None)
        if isinstance(obj, (int, float)):
            if obj == 0:
                return ("ok", 0, None)
            return ("ok", float(obj), None)
        return ("lenient", None, None)
    if kind == "P":
        if isinstance(obj, np.ndarray):
            if obj.ndim != 1 or obj.dtype.kind not in "biuf":
                return ("lenient", None, None)
            seq = obj.tolist()
        elif isinstance(obj, (list, tuple)):
            seq = list(obj)
        else:
            return ("lenient", None, None)
        if len(seq) != 2:
            return ("lenient", None, None)
        out = []
        for e in seq:
            f = _fstr(e) if isinstance(e, str) else _scalar(e)
            if f is None:
                return ("lenient", None, None)
            out.append(float(f))
        return ("ok", tuple(out), None)
    if kind == "N":
        disc = None
        if isinstance(obj, str):
            inner = obj.strip().strip("[] ")
            seq = inner.split(",")
        elif isinstance(obj, (list, tuple)):
            seq = list(obj)
        else:
            return ("lenient", None, None)
        out = []
        for e in seq:
            if isinstance(e, str) and e == "":
                continue
            if not isinstance(e, str) and _scalar(e) is not None and not e:
                disc = "intlist/falsy-element"
            r = _int_elem(e)
            if r[0] != "ok":
                return ("lenient", None, None)
            out.append(r[1])
        return ("ok", out, disc)
    if kind == "A":
        try:
            nested = _arr_rec(obj)
            sh = _shape(nested)
        except ValueError:
            return ("lenient", None, None)
        return ("ok", np.array(nested, dtype=np.float64).reshape(sh), None)
    raise ValueError(kind)


def type_ok(kind, v):
    """is `v` of the documented type of `kind`"""
    if kind in ("S", "L"):
        return isinstance(v, str)
    if kind == "F":
        return isinstance(v, float)
    if kind == "I":
        return isinstance(v, (int, np.integer)) and not isinstance(v, (bool, np.bool_))
    if kind == "B":
        return isinstance(v, (bool, np.bool_))
    if kind == "X":
        return isinstance(v, (bool, np.bool_, float))
    if kind == "P":
        return (isinstance(v, (tuple, np.ndarray)) and len(v) == 2
                and all(isinstance(x, float) for x in v))
    if kind == "N":
        return type(v) is list and all(type_ok("I", x) for x in v)
    if kind == "A":
        return isinstance(v, np.ndarray) and v.dtype == np.float64
    return True


def eq(a, b):
    """equality, NaN == NaN, sequences and arrays element-wise with equal shape"""
    if isinstance(a, np.ndarray) or isinstance(b, np.ndarray):
        if isinstance(a, (str, bytes)) or isinstance(b, (str, bytes)):
            return False
        try:
            a2, b2 = np.asarray(a), np.asarray(b)
        except Exception:
            return False
        if a2.shape != b2.shape:
            return False
        if a2.dtype.kind in "fc" and b2.dtype.kind in "fcbiu" or \
                b2.dtype.kind in "fc" and a2.dtype.kind in "fcbiu":
            return bool(np.array_equal(a2, b2, equal_nan=True))
        return bool(np.array_equal(a2, b2))
    if isinstance(a, (list, tuple)) and isinstance(b, (list, tuple)):
        return len(a) == len(b) and all(eq(x, y) for x, y in zip(a, b))
    if isinstance(a, (list, tuple)) or isinstance(b, (list, tuple)):
        return False
    if isinstance(a, (str, bytes)) or isinstance(b, (str, bytes)):
        return type(a) is type(b) and a == b or (
            isinstance(a, str) and isinstance(b, str) and str(a) == str(b))
    try:
        if a != a and b != b:
            return True
    except Exception:
        pass
    try:
        return bool(a == b)
    except Exception:
        return False


def same_class(a, b):
    """same broad value class (used where the value must be kept as is)"""
    def c(x):
        if isinstance(x, (bool, np.bool_)):
            return "bool"
        if isinstance(x, (int, np.integer)):
            return "int"
        if isinstance(x, (float, np.floating)):
            return "float"
        if isinstance(x, str):
            return "str"
        if isinstance(x, bytes):
            return "bytes"
        if isinstance(x, np.ndarray):
            return "array"
        return type(x).__name__
    return c(a) == c(b)


def keyvar(key, kv):
    """ASCII case variant of a key that lower-cases to the same string"""
    if not isinstance(key, str):
        return key
    m = kv % 4
    bits = kv // 4

    def up(i, c):
        if not (c.isascii() and c.isalpha()):
            return c
        if m == 1:
            return c.upper()
        if m == 2:
            return c.upper() if (i == 0 or not key[i - 1].isalpha()) else c
        if m == 3:
            return c.upper() if (bits >> (i % 12)) & 1 else c
        return c
    out = "".join(up(i, c) for i, c in enumerate(key))
    return out if out.lower() == key.lower() else key
