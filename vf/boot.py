"""Bootstrap for every check process (DESIGN.md §2/§3).

* puts the repository under test first on ``sys.path`` (``VERIF_REPO`` or /repo),
* installs the version shim *before* ``import dclab`` (files written by the
  untagged build could otherwise not be re-opened),
* provides a per-process scratch directory that is removed at exit,
* ``reset_globals()`` for the process-global registries of dclab.

Import this module before anything imports dclab.
"""
import atexit
import gc
import os
import pathlib
import shutil
import sys
import tempfile
import types
import warnings

REPO = os.environ.get("VERIF_REPO", "/repo")
VERIF = str(pathlib.Path(__file__).resolve().parent.parent)

if "dclab" in sys.modules:  # pragma: no cover
    raise RuntimeError("vf.boot must be imported before dclab")

sys.path.insert(0, REPO)

_m = types.ModuleType("dclab._version")
_m.version = _m.__version__ = "0.62.7"
_m.version_tuple = _m.__version_tuple__ = (0, 62, 7)
_m.commit_id = _m.__commit_id__ = None
sys.modules["dclab._version"] = _m

warnings.simplefilter("ignore")
os.environ.setdefault("PYTHONWARNINGS", "ignore")

import numpy as np  # noqa: E402

np.seterr(all="ignore")

import dclab  # noqa: E402

if not os.path.realpath(dclab.__file__).startswith(os.path.realpath(REPO) + os.sep):
    raise RuntimeError(f"dclab imported from {dclab.__file__}, expected {REPO}")

_TMPROOT = None


def tmproot() -> pathlib.Path:
    global _TMPROOT
    if _TMPROOT is None or not _TMPROOT.exists():
        base = os.environ.get("VERIF_TMP") or None
        _TMPROOT = pathlib.Path(tempfile.mkdtemp(prefix="vf_", dir=base))
        atexit.register(shutil.rmtree, str(_TMPROOT), True)
    return _TMPROOT


_case_counter = 0


def casedir() -> pathlib.Path:
    """Fresh empty directory for one case."""
    global _case_counter
    _case_counter += 1
    d = tmproot() / f"c{_case_counter}"
    d.mkdir()
    return d


def rmcase(d):
    shutil.rmtree(str(d), ignore_errors=True)


def reset_globals():
    """Reset dclab's process-global registries (top of every case)."""
    from dclab import PolygonFilter
    from dclab.rtdc_dataset import feat_temp
    from dclab.rtdc_dataset.feat_anc_plugin import plugin_feature
    from dclab.cached import Cache
    from dclab import util
    PolygonFilter.clear_all_filters()
    try:
        plugin_feature.remove_all_plugin_features()
    except Exception:
        pass
    feat_temp.deregister_all()
    Cache._cache = {}
    Cache._keys = []
    try:
        util.hashfile.cache_clear()
    except Exception:
        pass
    try:
        from dclab.features.emodulus import load as eload
        eload.EXTERNAL_LUTS.clear()
    except Exception:
        pass


def collect():
    gc.collect()


def stale_extensions():
    """Names of compiled extensions whose .pyx is newer than the .so
    (cannot be rebuilt here: no Cython) -> reported under `assumptions`."""
    out = []
    root = pathlib.Path(REPO) / "dclab"
    for pyx in root.rglob("*.pyx"):
        sos = list(pyx.parent.glob(pyx.stem + ".*.so"))
        if not sos:
            out.append(f"missing compiled extension: {pyx.relative_to(root)}")
        elif pyx.stat().st_mtime > max(s.stat().st_mtime for s in sos) + 1:
            out.append(f"stale compiled extension: {pyx.relative_to(root)}")
    return out
