"""Shared helpers: metadata, array equality, strategies, small writers."""
import contextlib
import copy
import hashlib
import io
import pathlib

import numpy as np
from hypothesis import strategies as st

META_BASE = {
    "experiment": {"sample": "vf", "run index": 1, "date": "2021-03-04",
                   "time": "12:00:00", "run identifier": "vf-rid-1"},
    "imaging": {"frame rate": 2000.0, "pixel size": 0.34,
                "flash device": "LED", "flash duration": 2.0},
    "setup": {"channel width": 20.0, "flow rate": 0.04,
              "medium": "CellCarrier", "chip region": "channel",
              "module composition": "Cell_Flow_2, Fluor",
              "software version": "ShapeIn 2.0.6", "flow rate sample": 0.01,
              "flow rate sheath": 0.03, "identifier": "ZMDD-AcC-8ecba5-cd57e2",
              "temperature": 23.0},
}


def meta(**over):
    m = copy.deepcopy(META_BASE)
    for sec, d in over.items():
        m.setdefault(sec, {}).update(d)
    return m


def eqnan(a, b):
    """exact equality with NaN == NaN, shapes must agree"""
    a = np.asarray(a)
    b = np.asarray(b)
    if a.shape != b.shape:
        return False
    if a.dtype.kind in "fc" or b.dtype.kind in "fc":
        return bool(np.array_equal(a, b, equal_nan=True))
    return bool(np.array_equal(a, b))


def close_nan(a, b, rtol=1e-12, atol=0.0):
    a = np.asarray(a, dtype=float)
    b = np.asarray(b, dtype=float)
    if a.shape != b.shape:
        return False
    return bool(np.allclose(a, b, rtol=rtol, atol=atol, equal_nan=True))


def sha256(path):
    h = hashlib.sha256()
    with open(path, "rb") as fd:
        for blk in iter(lambda: fd.read(1 << 20), b""):
            h.update(blk)
    return h.hexdigest()


@contextlib.contextmanager
def quiet():
    """silence prints of CLI tasks"""
    with contextlib.redirect_stdout(io.StringIO()), \
            contextlib.redirect_stderr(io.StringIO()):
        yield


@contextlib.contextmanager
def chunk_bytes(nbytes):
    """temporarily patch the writer's chunk size (None = default 1 MiB)"""
    from dclab.rtdc_dataset import writer
    old = writer.CHUNK_SIZE_BYTES
    if nbytes:
        writer.CHUNK_SIZE_BYTES = nbytes
    try:
        yield
    finally:
        writer.CHUNK_SIZE_BYTES = old


# ---------------------------------------------------------------- strategies

SPECIAL_FLOATS = [float("nan"), float("inf"), float("-inf"), -0.0, 0.0,
                  5e-324, 1e300, -1e300, 1e-300]


def st_float(special=0.25, lo=-1e3, hi=1e3):
    """float64 with special values mixed in"""
    base = st.floats(lo, hi, allow_nan=False, allow_infinity=False, width=64)
    nice = st.integers(-50, 50).map(lambda i: i / 8)
    if special <= 0:
        return st.one_of(base, nice)
    return st.one_of(base, nice, nice, st.sampled_from(SPECIAL_FLOATS))


def st_composition(n, max_parts=6):
    """composition of n (ordered list of positive ints summing to n)"""
    if n <= 0:
        return st.just([])
    if n == 1:
        return st.just([1])
    return st.lists(st.integers(1, n - 1), max_size=min(max_parts - 1, n - 1),
                    unique=True).map(
        lambda cuts: [b - a for a, b in zip([0] + sorted(cuts),
                                             sorted(cuts) + [n])])


def boundary_n(c=10, nmax=64):
    """event counts biased to chunk boundaries (c = events per chunk)"""
    pool = [1, 2, 3, c - 1, c, c + 1, 2 * c - 1, 2 * c, 2 * c + 1, 3 * c + 1]
    pool = [p for p in pool if 1 <= p <= nmax]
    return st.one_of(st.sampled_from(pool), st.integers(1, nmax))


def split_blocks(arr, comp):
    out, i = [], 0
    for k in comp:
        out.append(arr[i:i + k])
        i += k
    return out


def rng_array(seed, shape, kind="u8", lo=0, hi=255):
    r = np.random.default_rng(int(seed) % (2**32))
    if kind == "u8":
        return r.integers(lo, hi + 1, size=shape, dtype=np.uint8)
    if kind == "bool":
        return r.integers(0, 2, size=shape).astype(bool)
    if kind == "i16":
        return r.integers(-2000, 2000, size=shape).astype(np.int16)
    if kind == "f4":
        return r.normal(size=shape).astype(np.float32)
    if kind == "f8":
        return r.normal(size=shape)
    raise ValueError(kind)


def tolist(a):
    return np.asarray(a).tolist()


def P(p):
    return pathlib.Path(p)
